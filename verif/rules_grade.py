"""
Rules built on E2 (graded-recurrence checker): C12 (O1, O2, C12.D), and the
O3/O4 clauses of C01, C02, C07, C08; plus the ALIAS rule of C14/C02.
"""
import ast
from .core import Finding, RuleResult
from .model import AnalysisError, dotted_name, norm, walk_no_nested
from .grading import KernelAnalysis
from .affine import Aff
_AFF_D = Aff.var('#D')

ALGO = 'algopy.utpm.algorithms'
UTPM_MOD = 'algopy.utpm.utpm'

# kernel -> group.  Every name here must exist (anchor), otherwise exit 2.
GROUPS = {
    'elementary': ['_exp', '_log', '_sqrt', '_pow_real', '_sincos', '_tansec2', '_arcsin', '_arccos', '_arctan',
                   '_sinhcosh', '_tanhsech2', '_reciprocal', '_square', '_absolute', '_sign', '_minimum', '_maximum',
                   '_botched_clip', '_negative'],
    'composite': ['_expm1', '_logit', '_expit', '_log1p', '_dawsn', '_erf', '_erfi', '_hyperu', '_polygamma', '_psi', '_gammaln'],
    'helpers': ['_black_f_white_fprime', '_eval_slow_generic', '_taylor_polynomials_of_ode_solutions', '_plus_const'],
    'arith': ['_mul', '_amul', '_itruediv', '_truediv'],
    'linalg': ['_dot', '_dot_non_UTPM_x', '_dot_non_UTPM_y', '_outer', '_outer_non_utpm_x', '_outer_non_utpm_y',
               '_inv', '_solve', '_solve_non_UTPM_x', '_solve_non_UTPM_A', '_mul_non_UTPM_x', '_diag'],
    'factor': ['_cholesky', '_qr_rectangular', '_qr_full', '_eigh1', '_qr'],
}
MODULE_LEVEL = {'_black_f_white_fprime', '_eval_slow_generic', '_taylor_polynomials_of_ode_solutions', '_plus_const'}
RAW = {'_dot_non_UTPM_x': {'x_data'}, '_dot_non_UTPM_y': {'y_data'}, '_outer_non_utpm_x': {'x'},
       '_outer_non_utpm_y': {'y'}, '_solve_non_UTPM_x': {'x_data'}, '_solve_non_UTPM_A': {'A_data'},
       '_mul_non_UTPM_x': {'x_data'}}

# coefficient loops written directly in utpm.py: method -> (group, graded array names)
UTPM_LEVEL = {
    '__add__': ('arith', ['self.data', 'rhs.data', 'retval.data']),
    '__sub__': ('arith', ['self.data', 'rhs.data', 'retval.data']),
    '__mul__': ('arith', ['self.data', 'rhs.data']),
    '__truediv__': ('arith', ['self.data', 'rhs.data']),
    '__iadd__': ('arith', ['self.data', 'rhs.data']),
    '__isub__': ('arith', ['self.data', 'rhs.data']),
    '__imul__': ('arith', ['self.data', 'rhs.data']),
    '__itruediv__': ('arith', ['self.data', 'rhs.data', 'retval.data']),
    'lu': ('factor', ['A.data', 'L.data', 'U.data', 'W.data']),
    'lu2': ('factor', ['A.data', 'L.data', 'U.data', 'PIV.data']),
    'lu_factor': ('factor', ['A.data', 'LU.data', 'PIV.data']),
    'trace': ('maps', ['x.data']),
    'tril': ('maps', ['x.data', 'out.data']),
    'triu': ('maps', ['x.data', 'out.data']),
    'tile': ('maps', ['A.data', 'B.data']),
    'fft': ('maps', ['a.data', 'r.data']),
    'ifft': ('maps', ['a.data', 'r.data']),
}

UNANALYSED = {
    '_eigh': 'block deflation shifts the grading by the deflation level (relaxed problems); named in C12 itself',
    'UTPM.svd': 'compound, built on eigh of the Jordan-Wielandt matrix',
    'UTPM.eig': 'first order only (asserts D <= 2)',
    '_floordiv': 'not part of any property (L\'Hospital shift with a while loop)',
    'pytpcore branches': 'C extension absent in this sandbox; the pure-NumPy branch is what runs',
}

# guards on the truncation degree that are justified (function, normalised test) -> reason
DEGREE_GUARDS = {
    ('_absolute', 'D > 1'): 'skips a temporary (sign of x_0) that only orders >= 1 read',
    ('_taylor_polynomials_of_ode_solutions', 'k < d'): 'skips e_data[k] for the last order, which no retained coefficient reads',
}

PROP_GROUPS = {
    'C01': (['elementary', 'helpers', 'composite'], ('O3', 'O4', 'O5', 'O7', 'CTRL', 'RESHAPE')),
    'C02': (['arith'], ('O3', 'O4', 'O5', 'O7', 'CTRL', 'RESHAPE')),
    'C07': (['linalg', 'det'], ('O3', 'O4', 'O5', 'O7', 'CTRL', 'RESHAPE')),
    'C08': (['factor'], ('O3', 'O4', 'O5', 'O7', 'CTRL', 'RESHAPE')),
    'C12': (['elementary', 'helpers', 'composite', 'arith', 'linalg', 'factor', 'maps'], ('O1', 'O2', 'C12.D', 'CTRL')),
    'C13': (['maps'], ('O1', 'O3')),
}


PB_SKIP = {'_pb_dpm_hyp2f0': 'calls the commented-out kernel _dpm_hyp2f0 (raises AttributeError)',
           '_pb_hyp2f0': 'nthderiv.hyp2f0 removed (forward raises)', '_pb_hyp0f1': 'nthderiv.hyp0f1 removed (forward raises)'}


def analyse_pullbacks(ctx):
    """E2 over the pullback kernels: the adjoint recurrences are Taylor arithmetic too (the adjoint coefficient of
    weight e accumulates only products of total weight e)"""
    if 'E2pb' in ctx.cache:
        return ctx.cache['E2pb']
    m = ctx.model
    ci = m.cls('RawAlgorithmsMixIn')
    out = {}
    for n, fi in sorted(ci.methods.items()):
        if not (n.startswith('_pb_') or n.endswith('_pullback')) or n in PB_SKIP:
            continue
        out[n] = ('pullback', KernelAnalysis(fi, model=m, extra_graded=_graded_by_callsites(ctx, fi)).run())
    ctx.cache['E2pb'] = out
    return out


def rule_pb_grade(prop):
    obs = ('O3', 'O4', 'CTRL', 'RESHAPE') if prop == 'C03' else ('O1', 'O2', 'C12.D', 'CTRL')

    def rule(ctx):
        r = RuleResult('%s.pb-grade' % prop,
                       'pullback kernels are Taylor arithmetic as well: every store into an adjoint coefficient is homogeneous in the grading, '
                       'series are combined with series-level kernels (not coefficient-wise), and control flow does not depend on higher-order '
                       'coefficients' if prop == 'C03' else
                       'reverse sweep: every coefficient index in the pullback kernels stays in range, reads are causal and independent of the '
                       'truncation degree')
        res = analyse_pullbacks(ctx)
        for name, (grp, ka) in sorted(res.items()):
            fi = ka.fi
            for i in [x for x in ka.issues if x.ob in obs]:
                r.bad(Finding('%s.pb.%s' % (prop, i.ob), fi.fq, norm(i.node)[:160] if isinstance(i.node, ast.AST) else str(i.node),
                              '[%s] %s: %s' % (i.ob, fi.qualname, i.msg), fi.file, getattr(i.node, 'lineno', fi.lineno)))
            for node, why in ka.unknown:
                if 'O3' not in obs and ('inhomogeneous' in why or 'weights' in why):
                    continue
                r.unknown(fi.site(node), why)
            r.instances += ka.discharged
            r.holding += ka.discharged
            if ka.obligations:
                r.nontrivial.add(fi.fq)
            for s_ in ka.samples[:1]:
                if len(r.samples) < 5:
                    r.samples.append(s_)
        for k, why in PB_SKIP.items():
            r.note('not analysed: %s - %s' % (k, why))
        r.stats = {'pullback_kernels': len(res)}
        r.floor = 150
        return r
    rule.__name__ = 'rule_pb_grade_' + prop
    return rule


def _graded_by_callsites(ctx, fi):
    """parameters of a (private) kernel that receive coefficient arrays at some call site inside the library: `X.data`, a `*_data`
    name or a slice of those - so that renaming `x_data` to `u` in a private kernel does not hide it from the analysis"""
    eff = ctx.effects
    out = set()
    for p_ in fi.value_params():
        if p_.endswith('_data') or p_ == 'out':
            continue
        eff.param_bindings(fi, p_)
        for caller, expr in eff._pbind.get((fi, p_), []):
            e = expr
            while isinstance(e, ast.Subscript):
                e = e.value
            if isinstance(e, ast.Attribute) and e.attr == 'data':
                out.add(p_)
            elif isinstance(e, ast.Name) and e.id.endswith('_data'):
                out.add(p_)
            elif isinstance(e, ast.Call) and (dotted_name(e.func) or '').split('.')[-1] in ('_transpose', 'zeros_like', '__zeros_like__', 'copy') \
                    and e.args and isinstance(e.args[0], (ast.Name, ast.Attribute)) and (norm(e.args[0]).endswith('_data') or norm(e.args[0]).endswith('.data')):
                out.add(p_)
    return out


def _delegates(m, fi, ka, have, depth=0):
    """A listed kernel that hands its graded arrays to a private helper (a module
    function or a method of the same class that is not itself a listed kernel): the helper holds the recurrence and is
    analysed in the kernel's place, its graded parameters being those that receive graded arrays.  -> [(name, analysis)]"""
    if depth > 1:
        return []
    found = []
    for c in walk_no_nested(fi.node):
        if not isinstance(c, ast.Call):
            continue
        d = dotted_name(c.func)
        if d is None:
            continue
        h = None
        if '.' not in d:
            t = m.resolve_dotted(fi.module, d)
            if t is not None and t[0] == 'func':
                h = t[1]
        elif d.split('.')[0] in ('cls', 'self', fi.cls or '') and d.count('.') == 1 and fi.cls:
            h = m.lookup_method(fi.cls, d.split('.')[1])
        if h is None or not h.name.startswith('_') or h.name.startswith('__') or h.name in have or h is fi:
            continue
        if h.name in [x for names in GROUPS.values() for x in names]:
            continue
        params = h.value_params()
        graded = set()
        objs = set()        # parameters receiving UTPM objects whose .data is graded in the caller

        def view_of(a):
            """`A.data[:, p]` / `x_data[:, p:p+1, ...]`: one direction of a graded array, the coefficient axis kept whole"""
            if isinstance(a, ast.Subscript) and ka._arr_name(a.value) in ka.gvars:
                i0 = a.slice.elts[0] if isinstance(a.slice, ast.Tuple) and a.slice.elts else a.slice
                if isinstance(i0, ast.Slice) and i0.lower is None and i0.upper is None and i0.step is None:
                    return ka._arr_name(a.value)
            return None
        for i, a in enumerate(c.args):
            if (ka._arr_name(a) in ka.gvars or view_of(a)) and i < len(params):
                graded.add(params[i])
            elif isinstance(a, ast.Name) and a.id + '.data' in ka.gvars and i < len(params):
                objs.add(params[i])
        for k in c.keywords:
            if k.arg and (ka._arr_name(k.value) in ka.gvars or view_of(k.value)):
                graded.add(k.arg)
            elif k.arg and isinstance(k.value, ast.Name) and k.value.id + '.data' in ka.gvars:
                objs.add(k.arg)
        if not graded and not objs:
            # fail closed: graded data that reaches a helper in a form that is not followed (only shapes and single coefficients are harmless)
            for a in list(c.args) + [k.value for k in c.keywords]:
                skip = set()
                for x in ast.walk(a):
                    if isinstance(x, ast.Attribute) and x.attr in ('shape', 'dtype', 'ndim', 'size'):
                        skip |= {id(y) for y in ast.walk(x.value)}
                    if isinstance(x, ast.Subscript) and ka._arr_name(x.value) in ka.gvars:
                        i0 = x.slice.elts[0] if isinstance(x.slice, ast.Tuple) and x.slice.elts else x.slice
                        if not isinstance(i0, ast.Slice):
                            skip |= {id(y) for y in ast.walk(x.value)}
                for x in ast.walk(a):
                    if id(x) not in skip and isinstance(x, (ast.Name, ast.Attribute)) and ka._arr_name(x) in ka.gvars:
                        ka.unknown.append((c, 'graded array `%s` is handed to the helper %s in a form that is not followed: `%s`' % (ka._arr_name(x), h.name, norm(a)[:50])))
                        break
            continue
        # parameters that receive the caller's truncation degree
        dpar = set()
        for i, a in enumerate(c.args):
            if isinstance(a, ast.Name) and a.id in ka.dsyms and i < len(params) and str(ka.aff_env.get(a.id)) == str(_AFF_D):
                dpar.add(params[i])
        for k in c.keywords:
            if k.arg and isinstance(k.value, ast.Name) and k.value.id in ka.dsyms and str(ka.aff_env.get(k.value.id)) == str(_AFF_D):
                dpar.add(k.arg)
        hka = KernelAnalysis(h, graded_params=graded, extra_dsyms=dpar, model=m)
        hka.defer_coverage = True       # a helper holds part of the recurrence: its stores are credited to the caller (O7)
        for o in objs:
            hka._decl(o + '.data', 'in')
        if 'out' in graded and 'out' in hka.gvars:
            hka._decl('out', 'out')
        hka.run()
        found.append((h.name, hka))
        found.extend(_delegates(m, h, hka, have | {h.name}, depth + 1))
        # caller array -> helper parameter
        amap = {}
        for i, a in enumerate(c.args):
            if i < len(params):
                an = ka._arr_name(a) if ka._arr_name(a) in ka.gvars else view_of(a)
                if an in ka.gvars and params[i] in graded:
                    amap[an] = params[i]
                elif isinstance(a, ast.Name) and a.id + '.data' in ka.gvars and params[i] in objs:
                    amap[a.id + '.data'] = params[i] + '.data'
        for k in c.keywords:
            if k.arg:
                an = ka._arr_name(k.value)
                if an in ka.gvars and k.arg in graded:
                    amap[an] = k.arg
                elif isinstance(k.value, ast.Tuple) and k.arg == 'out':
                    # out=(y_data, z_data): the helper unpacks `a, b = out`
                    names_ = []
                    for st_ in walk_no_nested(h.node):
                        if isinstance(st_, ast.Assign) and isinstance(st_.value, ast.Name) and st_.value.id == 'out' \
                                and isinstance(st_.targets[0], (ast.Tuple, ast.List)):
                            names_ = [e.id if isinstance(e, ast.Name) else None for e in st_.targets[0].elts]
                    for e_, hn in zip(k.value.elts, names_):
                        an = ka._arr_name(e_)
                        if an in ka.gvars and hn:
                            amap[an] = hn
        from .grading import cover_sets
        ka.delegate_cover = getattr(ka, 'delegate_cover', {})
        for an, hp in amap.items():
            cs = cover_sets(hka, hp)
            sub = getattr(hka, 'delegate_cover', {}).get(hp, {})
            for D_, idx in cs.items():
                ka.delegate_cover.setdefault(an, {}).setdefault(D_, set()).update(idx | set(sub.get(D_, ())))
    return found


ACCUMULATE_BY_CONTRACT = {
    '_amul': 'z += x*y (docstring): the accumulate-multiply used by the pullbacks',
    '_iouter': 'in-place outer-product accumulation',
}
COVERAGE_EXEMPT = {
    # (function, position of the array among the value parameters): (which missing index is accepted: 'first' | 'last', reason)
    ('_taylor_polynomials_of_ode_solutions', 4): ('first', 'the first coefficient of the solution is the recursion base supplied by the caller (docstring)'),
}


def _coverage_exempt(fi, wit):
    vp = fi.value_params()
    arr = wit.get('array')
    ex = COVERAGE_EXEMPT.get((fi.name, vp.index(arr))) if arr in vp else None
    if ex is None:
        return None
    gaps = wit.get('gaps') or {wit.get('#D'): wit.get('missing')}
    for D, miss in gaps.items():
        if not ((ex[0] == 'first' and miss == [0]) or (ex[0] == 'last' and miss == [int(D) - 1])):
            wit['#D'], wit['missing'] = D, miss
            return None
    return ex[1]
ZERO_ALLOCS = {'zeros', 'zeros_like', '__zeros__', '__zeros_like__'}
DIRTY_ALLOCS = {'empty', 'empty_like'}


def _buffer_origins(ctx, fi, param, depth=0, seen=None):
    """Where can the array bound to parameter `param` of fi come from?  Follows every call site in the analysed modules
    (E1 argument values) back to an allocation or to a parameter of a public function.
    -> list of (kind, text) with kind in 'zero' (allocated with zeros), 'dirty' (numpy.empty*), 'user' (an argument a user
    passes to a public function), 'other'"""
    eff = ctx.effects
    seen = seen if seen is not None else set()
    if (fi, param) in seen or depth > 6:
        return []
    seen.add((fi, param))
    eff.param_bindings(fi, param)       # builds the call-site map
    sites = eff._pbind.get((fi, param), [])
    out = []
    for caller, expr in sites:
        if expr is None:
            out.append(('other', '%s: *args call' % caller.qualname))
            continue
        # the call node: find it to read the E1 value of the argument
        av = None
        for cid, (cnode, args, kws) in eff.sums[caller].callargs.items():
            for a_node, a_av in list(zip(cnode.args, args)) + [(k.value, kws.get(k.arg)) for k in cnode.keywords if k.arg]:
                if a_node is expr:
                    av = a_av
        if av is None:
            out.append(('other', '%s: `%s`' % (caller.qualname, norm(expr)[:40])))
            continue
        from .effects import flat
        for root in sorted(flat(av)):
            if root[0] == 'p':
                q = root[1]
                if q in ('self', 'cls'):
                    continue
                public = not caller.name.startswith('_') or (caller.name.startswith('__') and caller.name.endswith('__'))
                if public:
                    out.append(('user', '%s(%s=...)' % (caller.qualname, q)))
                else:
                    sub = _buffer_origins(ctx, caller, q, depth + 1, seen)
                    out.extend(sub)
            elif root[0] == 'fresh':
                kinds = set()
                for n in ast.walk(caller.node):
                    if isinstance(n, ast.Call) and getattr(n, 'lineno', None) == root[1]:
                        d = dotted_name(n.func) or ''
                        last = d.split('.')[-1]
                        if last in ZERO_ALLOCS:
                            kinds.add('zero')
                        elif last in DIRTY_ALLOCS:
                            kinds.add('dirty')
                if 'zero' in kinds and 'dirty' not in kinds and _buffer_reused(caller, root[1], expr):
                    kinds = {'dirty'}
                if 'dirty' in kinds:
                    out.append(('dirty', '%s line %d (numpy.empty, or a work buffer that is written more than once)' % (caller.qualname, root[1])))
                elif 'zero' in kinds:
                    out.append(('zero', '%s line %d' % (caller.qualname, root[1])))
                else:
                    out.append(('other', '%s line %d' % (caller.qualname, root[1])))
    return out


def _buffer_reused(caller, alloc_line, arg_expr):
    """a zero-allocated local that is passed to the kernel is still all-zero only if nothing else writes it: True when the
    name bound at `alloc_line` is written (store target, augmented assignment, out= / positional output of another call)
    anywhere else in the caller, or when the call sits in a loop the allocation is outside of"""
    names = set()
    for st in walk_no_nested(caller.node):
        if isinstance(st, ast.Assign) and st.lineno <= alloc_line <= getattr(st, 'end_lineno', st.lineno):
            for t in st.targets:
                for n in ast.walk(t):
                    if isinstance(n, ast.Name):
                        names.add(n.id)
    used = {n.id for n in ast.walk(arg_expr) if isinstance(n, ast.Name)} & names
    if not used:
        return False        # allocated inline in the call
    writes = 0
    for st in walk_no_nested(caller.node):
        if isinstance(st, (ast.Assign, ast.AugAssign)):
            tg = st.targets if isinstance(st, ast.Assign) else [st.target]
            for t in tg:
                if isinstance(t, (ast.Subscript, ast.Attribute)) or isinstance(st, ast.AugAssign):
                    b = t
                    while isinstance(b, (ast.Subscript, ast.Attribute)):
                        b = b.value
                    if isinstance(b, ast.Name) and b.id in used:
                        writes += 1
        if isinstance(st, ast.Call):
            for k in st.keywords:
                if k.arg in ('out', 'work') and ({n.id for n in ast.walk(k.value) if isinstance(n, ast.Name)} & used):
                    writes += 1
            for a in st.args[1:]:
                # positional output convention of the kernels: (inputs..., out)
                if st.args and a is st.args[-1] and isinstance(st.func, ast.Attribute) and st.func.attr.startswith('_') \
                        and ({n.id for n in ast.walk(a) if isinstance(n, ast.Name)} & used):
                    writes += 1
    if writes > 1:
        return True
    # allocation outside a loop that contains the call
    for lp in walk_no_nested(caller.node):
        if isinstance(lp, (ast.For, ast.While)) and any(n is arg_expr for n in ast.walk(lp)) \
                and not (lp.lineno <= alloc_line <= getattr(lp, 'end_lineno', lp.lineno)):
            return True
    return False


def _o5_verdict(ctx, ka, issue):
    """-> ('violation', text) | ('ok', text) | ('note', text) for an accumulate-before-define finding"""
    fi = ka.fi
    if fi.name in ACCUMULATE_BY_CONTRACT:
        return 'ok', '%s accumulates by contract: %s' % (fi.qualname, ACCUMULATE_BY_CONTRACT[fi.name])
    name = (issue.witness or {}).get('array')
    eff = ctx.effects
    st = issue.node
    roots = None
    sm = eff.sums.get(fi)
    if sm is not None:
        for ev in sm.events:
            if ev.node is st or (getattr(ev.node, 'lineno', None) == getattr(st, 'lineno', -1) and norm(ev.node) == norm(st)):
                roots = set(ev.roots) if roots is None else roots | set(ev.roots)
    if not roots:
        return 'note', '%s accumulates into `%s` before defining it; the storage written could not be traced (E1)' % (fi.qualname, name)
    bad, zero, other, nsites = [], 0, [], 0
    for root in sorted(roots):
        if root[0] == 'fresh':
            kinds = set()
            for n in ast.walk(fi.node):
                if isinstance(n, ast.Call) and getattr(n, 'lineno', None) == root[1]:
                    last = (dotted_name(n.func) or '').split('.')[-1]
                    if last in DIRTY_ALLOCS:
                        kinds.add('dirty')
                    elif last in ZERO_ALLOCS:
                        kinds.add('zero')
            if 'dirty' in kinds:
                bad.append('numpy.empty allocation at line %d' % root[1])
            else:
                zero += 1       # zeros, or a value computed/copied from data (defined contents)
        elif root[0] == 'p' and root[1] not in ('self', 'cls'):
            public = not fi.name.startswith('_') or (fi.name.startswith('__') and fi.name.endswith('__'))
            if public:
                bad.append('the argument `%s` a user passes to %s' % (root[1], fi.qualname))
                continue
            origins = _buffer_origins(ctx, fi, root[1])
            nsites += len(origins)
            bad.extend(t for k, t in origins if k in ('user', 'dirty'))
            other.extend(t for k, t in origins if k == 'other')
            zero += sum(1 for k, _ in origins if k == 'zero')
    if bad:
        return 'violation', 'the buffer can be non-zero on entry: %s' % '; '.join(sorted(set(bad))[:3])
    if other:
        return 'note', '%s accumulates into `%s` before defining it; origins of the buffer not all resolved: %s' % (fi.qualname, name, sorted(set(other))[:3])
    return 'ok', '%s accumulates into `%s` relying on zero-initialised storage: every origin (%d allocation/call sites) provides zeros or defined data' % (fi.qualname, name, zero)


def rule_out_defined(ctx):
    """O6: an output array of a forward kernel is read over its whole coefficient axis before the kernel has defined it
    over that axis.  If that array can arrive non-zero (a user's `out`, a re-used work buffer) the result depends on what
    an earlier call left in the buffer."""
    r = RuleResult('C06.out-defined', 'forward kernels do not read an output array over its whole coefficient axis before defining it over that '
                                      'axis, unless every buffer that reaches the parameter is freshly allocated with zeros (origins followed '
                                      'through the call sites with the E1 argument values)')
    m = ctx.model
    ci = m.cls('RawAlgorithmsMixIn')
    if ci is None:
        raise AnalysisError('E2.anchor', ALGO, 'class RawAlgorithmsMixIn vanished')

    def axis0(sl):
        return sl.elts[0] if isinstance(sl, ast.Tuple) and sl.elts else sl

    def full(a0):
        return (isinstance(a0, ast.Slice) and a0.lower is None and a0.upper is None and a0.step is None) \
            or (isinstance(a0, ast.Constant) and a0.value is Ellipsis)

    n_arrays = 0
    cu = m.cls('UTPM')
    funcs = sorted(ci.methods.items()) + sorted((n_, f_) for n_, f_ in (cu.methods.items() if cu else []) if 'out' in f_.params + f_.kwonly)

    def arr(e):
        # `x_data` or `X.data`
        if isinstance(e, ast.Name):
            return e.id, e.id
        if isinstance(e, ast.Attribute) and e.attr == 'data' and isinstance(e.value, ast.Name):
            return e.value.id + '.data', e.value.id
        return None, None

    for name, fi in funcs:
        if name.startswith('_pb_') or name.startswith('pb_') or name.endswith('_pullback') or name in ACCUMULATE_BY_CONTRACT:
            continue
        params = set(fi.params) | set(fi.kwonly)
        alias = {}
        for st in walk_no_nested(fi.node):
            if isinstance(st, ast.Assign) and isinstance(st.value, ast.Name) and st.value.id in params:
                for t in st.targets:
                    for e in (t.elts if isinstance(t, (ast.Tuple, ast.List)) else [t]):
                        if isinstance(e, ast.Name):
                            alias[e.id] = st.value.id
            if isinstance(st, ast.Assign) and isinstance(st.value, ast.Subscript) and isinstance(st.value.value, ast.Name) \
                    and st.value.value.id in params and isinstance(st.value.slice, ast.Constant) and isinstance(st.targets[0], ast.Name):
                alias[st.targets[0].id] = st.value.value.id
        stored = set()
        for st in walk_no_nested(fi.node):
            if isinstance(st, (ast.Assign, ast.AugAssign)):
                for t in (st.targets if isinstance(st, ast.Assign) else [st.target]):
                    if isinstance(t, ast.Subscript) and arr(t.value)[1] is not None and (arr(t.value)[1] in params or arr(t.value)[1] in alias):
                        stored.add(arr(t.value)[0])
        # statement order: reads of a statement happen before its store
        stmt_line = {}
        for st in walk_no_nested(fi.node):
            if isinstance(st, ast.stmt):
                for n in ast.walk(st):
                    if isinstance(n, ast.Subscript):
                        stmt_line[id(n)] = max(stmt_line.get(id(n), 0), st.lineno)      # innermost enclosing statement
        for P in sorted(stored):
            n_arrays += 1
            events = []
            for n in walk_no_nested(fi.node):
                if isinstance(n, ast.Subscript) and arr(n.value)[0] == P:
                    a0 = axis0(n.slice)
                    ln = stmt_line.get(id(n), n.lineno)
                    if isinstance(n.ctx, ast.Store):
                        events.append((ln, 1, 'def-all' if full(a0) else 'def', n))
                    elif full(a0):
                        events.append((ln, 0, 'read-all', n))
            events.sort(key=lambda e: (e[0], e[1]))
            first_read = None
            for ln, _, k, n in events:
                if k == 'def-all':
                    break
                if k == 'read-all':
                    first_read = n
                    break
            base = alias.get(P.split('.')[0], P.split('.')[0])
            if first_read is None:
                r.ok(construct='%s:%s' % (fi.qualname, P), sample='%s: `%s` is defined over the coefficient axis before any whole-axis read' % (fi.qualname, P))
                continue
            public = not fi.name.startswith('_')
            origins = _buffer_origins(ctx, fi, base) if base in params else [('dirty', 'local array')]
            bad = sorted({t for k, t in origins if k in ('user', 'dirty')})
            other = sorted({t for k, t in origins if k == 'other'})
            if bad:
                r.bad(Finding('C06.out-defined', fi.fq, '%s:%s' % (P, norm(first_read)[:60]),
                              '%s reads `%s` over its whole coefficient axis before defining it; the buffer can be non-zero on entry: it reaches '
                              '`%s` from %s - the result then depends on what an earlier call left in it'
                              % (fi.qualname, norm(first_read)[:60], base, '; '.join(bad[:3])), fi.file, first_read.lineno))
            elif other:
                r.note('%s reads `%s` before defining it; origins of the buffer not all resolved: %s' % (fi.qualname, norm(first_read)[:50], other[:3]))
                r.ok(construct='%s:%s' % (fi.qualname, P))
            else:
                r.ok(construct='%s:%s' % (fi.qualname, P), nontrivial=True,
                     sample='%s reads `%s` before defining it, but every call site passes a fresh zero buffer (%d sites)' % (fi.qualname, norm(first_read)[:40], len(origins)))
    r.floor = 40
    r.stats = {'output_arrays': n_arrays}
    return r


def _harmless_degree_guard(ka, st):
    """a guard on the truncation degree with no else-branch is harmless when everything its body stores is either
      (a) a coefficient of index >= c under `D > c` (such coefficients do not exist when the guard fails), or
      (b) an entry of a local work array that no read can hit (checked by O7 with the read filter: no O7 issue for that array),
    plus plain local temporaries."""
    if st.orelse:
        return False
    body_ids = {id(n) for b in st.body for n in ast.walk(b)}
    stores = [w for w in ka.wlog if id(w[4]) in body_ids]
    if not stores:
        # only temporaries are bound (`x_sign = numpy.sign(x_data[0])`): they are consumed by coefficients of higher index
        return all(isinstance(b, (ast.Assign, ast.AugAssign, ast.Expr, ast.For, ast.If)) for b in st.body) and \
            not any(isinstance(n, (ast.Return, ast.Raise, ast.Break, ast.Continue)) for b in st.body for n in ast.walk(b))
    c = None
    t = st.test
    if isinstance(t, ast.Compare) and len(t.ops) == 1:
        l, r_, op = t.left, t.comparators[0], t.ops[0]
        if isinstance(l, ast.Name) and l.id in ka.dsyms and isinstance(r_, ast.Constant) and isinstance(r_.value, int) and str(ka.aff_env.get(l.id)) == str(_AFF_D):
            c = r_.value if isinstance(op, ast.Gt) else (r_.value - 1 if isinstance(op, ast.GtE) else None)
        elif isinstance(r_, ast.Name) and r_.id in ka.dsyms and isinstance(l, ast.Constant) and isinstance(l.value, int) and str(ka.aff_env.get(r_.id)) == str(_AFF_D):
            c = l.value if isinstance(op, ast.Lt) else (l.value - 1 if isinstance(op, ast.LtE) else None)
    from .affine import lower_bound
    o7_arrays = {(i.witness or {}).get('array') for i in ka.issues if i.ob == 'O7'}
    for (name, kind, seq, loops, wst, branch, cons) in stores:
        g = ka.gvars.get(name)
        if g is not None and g.role == 'local' and name not in o7_arrays:
            continue                                    # (b)
        if c is not None:
            e = kind[1]
            try:
                lb = lower_bound(e, ka._all_ranges([e]))
            except Exception:
                return False
            if lb.is_const and lb.c >= c:
                continue                                # (a)
        return False
    return True


def _emptiness_guard(st):
    """`if D * P == 0:` / `if D == 0:` / `if x_data.size == 0:` with a body that returns / raises: the guard separates arrays without any
    coefficient from the rest; for every polynomial (D >= 1, P >= 1) it is false, so no coefficient depends on it"""
    t = st.test
    if not (isinstance(t, ast.Compare) and len(t.ops) == 1 and isinstance(t.ops[0], ast.Eq) and isinstance(t.comparators[0], ast.Constant)
            and t.comparators[0].value == 0 and not st.orelse and st.body and isinstance(st.body[-1], (ast.Return, ast.Raise))):
        return False
    l = t.left

    def extent_product(e):
        if isinstance(e, ast.Name):
            return True
        if isinstance(e, ast.Attribute) and e.attr == 'size':
            return True
        if isinstance(e, ast.BinOp) and isinstance(e.op, ast.Mult):
            return extent_product(e.left) and extent_product(e.right)
        return False
    return extent_product(l)


def _early_exit_guard(ka, fi, st):
    """`if D < c: return out` (also `D <= c-1`, `D == 1`) in front of the rest of the block is the guard `if D >= c:` around
    that rest: harmless under the same conditions as _harmless_degree_guard"""
    if st.orelse or not (len(st.body) == 1 and isinstance(st.body[0], ast.Return)):
        return False
    t = st.test
    if not (isinstance(t, ast.Compare) and len(t.ops) == 1):
        return False
    l, r_, op = t.left, t.comparators[0], t.ops[0]
    neg = {ast.Lt: ast.GtE, ast.LtE: ast.Gt, ast.Gt: ast.LtE, ast.GtE: ast.Lt}
    if isinstance(op, ast.Eq) and isinstance(r_, ast.Constant) and r_.value == 1 and isinstance(l, ast.Name):
        nt = ast.Compare(left=l, ops=[ast.Gt()], comparators=[r_])          # D == 1  <->  not D > 1   (D >= 1 always)
    elif type(op) in neg:
        nt = ast.Compare(left=l, ops=[neg[type(op)]()], comparators=[r_])
    else:
        return False
    # the statements that follow the guard in its block
    rest = None
    for n in ast.walk(fi.node):
        for attr in ('body', 'orelse', 'finalbody'):
            blk = getattr(n, attr, None)
            if isinstance(blk, list) and st in blk:
                rest = blk[blk.index(st) + 1:]
    if not rest:
        return False
    synth = ast.copy_location(ast.If(test=nt, body=[b for b in rest if not isinstance(b, ast.Return)], orelse=[]), st)
    if not synth.body:
        return True
    return _harmless_degree_guard(ka, synth)


def _existence_guard(ka, st):
    """`if D > c:` (also `D >= c+1`, `c < D`) with no else-branch whose body touches graded arrays at constant coefficient
    indices only, the largest being c: the guard says exactly that this coefficient exists, so lower orders cannot
    depend on the truncation degree through it"""
    t = st.test
    if st.orelse or not (isinstance(t, ast.Compare) and len(t.ops) == 1):
        return False
    l, r_, op = t.left, t.comparators[0], t.ops[0]
    c = None
    if isinstance(l, ast.Name) and l.id in ka.dsyms and isinstance(r_, ast.Constant) and isinstance(r_.value, int):
        c = r_.value if isinstance(op, ast.Gt) else (r_.value - 1 if isinstance(op, ast.GtE) else None)
    elif isinstance(r_, ast.Name) and r_.id in ka.dsyms and isinstance(l, ast.Constant) and isinstance(l.value, int):
        c = l.value if isinstance(op, ast.Lt) else (l.value - 1 if isinstance(op, ast.LtE) else None)
    if c is None or str(ka.aff_env.get(l.id if isinstance(l, ast.Name) else r_.id)) != str(_AFF_D):
        return False
    idx = []
    for b in st.body:
        for n in ast.walk(b):
            if isinstance(n, ast.Subscript) and ka._arr_name(n.value) in ka.gvars:
                first = n.slice.elts[0] if isinstance(n.slice, ast.Tuple) and n.slice.elts else n.slice
                if not (isinstance(first, ast.Constant) and isinstance(first.value, int) and not isinstance(first.value, bool)):
                    return False
                idx.append(first.value)
            if isinstance(n, (ast.For, ast.While)):
                return False
    return bool(idx) and max(idx) == c and min(idx) >= 0


def analyse_all(ctx):
    if 'E2' in ctx.cache:
        return ctx.cache['E2']
    m = ctx.model
    out = {}
    ci = m.cls('RawAlgorithmsMixIn')
    if ci is None:
        raise AnalysisError('E2.anchor', ALGO, 'class RawAlgorithmsMixIn vanished')
    for grp, names in GROUPS.items():
        for n in names:
            if n in MODULE_LEVEL:
                fi = m.func(ALGO, n)
            else:
                fi = ci.methods.get(n)
                if fi is None:
                    raise AnalysisError('E2.anchor', ALGO + ':' + n, 'kernel vanished')
            ka = KernelAnalysis(fi, raw_params=RAW.get(n, ()), model=m, extra_graded=_graded_by_callsites(ctx, fi))
            ka.defer_coverage = True
            ka.run()
            out[n] = (grp, ka)
            for hname, hka in _delegates(m, fi, ka, set(out)):
                out[n + '->' + hname] = (grp, hka)
            ka.finish_coverage(getattr(ka, 'delegate_cover', {}))
    for n, (grp, graded) in UTPM_LEVEL.items():
        fi = m.lookup_method('UTPM', n)
        if fi is None:
            raise AnalysisError('E2.anchor', UTPM_MOD + ':UTPM.' + n, 'method vanished')
        ka = KernelAnalysis(fi, graded_params=graded, model=m)
        for g in graded:
            if g not in ka.gvars:
                ka._decl(g, 'in')
        ka.defer_coverage = True
        ka.run()
        out['UTPM.' + n] = (grp, ka)
        for hname, hka in _delegates(m, fi, ka, set(out)):
            out['UTPM.' + n + '->' + hname] = (grp, hka)
        ka.finish_coverage(getattr(ka, 'delegate_cover', {}))
    ctx.cache['E2'] = out
    return out


def rule_grade(prop):
    groups, obs = PROP_GROUPS[prop]

    def rule(ctx):
        r = RuleResult('%s.grade' % prop, {
            'C01': 'every coefficient assignment of the elementary-function kernels is homogeneous in the power-series grading '
                   '(O3) and its summation ranges are maximal (O4: no missing top/bottom term)',
            'C02': 'the convolution kernels of *, / and the in-place operators are homogeneous (O3) with maximal ranges (O4)',
            'C07': 'dot/outer/inv/solve kernels: every assignment is homogeneous (O3) with maximal summation ranges (O4)',
            'C08': 'QR / Cholesky / LU / eigh1 recurrences: residuals and factor coefficients are homogeneous (O3), ranges maximal (O4)',
            'C12': 'every coefficient index read or written stays inside [0, D-1] for all loop values (O1), every read is of an '
                   'already available coefficient of weight <= the order being defined (O2), and no index depends on the truncation degree (C12.D)',
            'C13': 'per-slice maps (trace, tril, triu, tile, fft, ifft) write coefficient d from coefficient d only',
        }[prop])
        res = analyse_all(ctx)
        n_k = 0
        for name, (grp, ka) in sorted(res.items()):
            if grp not in groups and not ('det' in groups and name.startswith('UTPM.lu2')):
                continue
            n_k += 1
            fi = ka.fi
            mine = [i for i in ka.issues if i.ob in obs]
            others = [i for i in ka.issues if i.ob not in obs]
            for i in mine:
                if i.ob == 'O7' and _coverage_exempt(fi, i.witness or {}) is None and (i.witness or {}).get('array') in fi.value_params() \
                        and (fi.name, fi.value_params().index(i.witness['array'])) in COVERAGE_EXEMPT:
                    i.msg += ' (beyond the accepted exception: D=%s misses %s)' % (i.witness.get('#D'), i.witness.get('missing'))
                if i.ob == 'O7' and _coverage_exempt(fi, i.witness or {}) is not None:
                    r.note('%s: coefficient %s of `%s` not stored - accepted: %s' % (fi.qualname, i.witness.get('missing'), i.witness.get('array'),
                                                                                 _coverage_exempt(fi, i.witness)))
                    r.ok(construct=fi.fq + ':O7:' + str(i.witness.get('array')))
                    continue
                if i.ob == 'O5':
                    verdict, text = _o5_verdict(ctx, ka, i)
                    if verdict == 'ok':
                        r.ok(construct=fi.fq + ':O5', nontrivial=True, sample=text)
                        continue
                    if verdict == 'note':
                        r.note(text)
                        continue
                    i.msg = i.msg + ' - ' + text
                r.bad(Finding('%s.%s' % (prop, i.ob), fi.fq, norm(i.node)[:160] if isinstance(i.node, ast.AST) else str(i.node),
                              '[%s] %s: %s' % (i.ob, fi.qualname, i.msg), fi.file, getattr(i.node, 'lineno', fi.lineno),
                              extra={'witness': {k: str(v) for k, v in (i.witness or {}).items()}}))
            for node, why in ka.unknown:
                if 'O3' not in obs and ('inhomogeneous' in why or 'weights' in why):
                    continue        # a homogeneity failure is decided (and reported) under the properties that own O3
                r.unknown(fi.site(node), why)
            # obligations: count those of this analysis (all kinds are needed to reach a verdict)
            ok = ka.discharged
            r.instances += ok
            r.holding += ok
            if ka.stores:
                r.nontrivial.add(fi.fq)
            for s in ka.samples[:2]:
                if len(r.samples) < 6:
                    r.samples.append(s)
            # guards on the truncation degree
            if prop == 'C12':
                for st in ka.guards_on_degree:
                    key = (fi.name, norm(st.test))
                    if all(isinstance(b, ast.Raise) for b in st.body) and not st.orelse:
                        r.ok(construct=fi.fq + ':shape-guard', sample='%s: `%s` only raises (input validation)' % (fi.qualname, norm(st.test)))
                    elif _emptiness_guard(st):
                        r.ok(construct=fi.fq + ':empty-guard', sample='%s: `%s` only separates empty arrays (no coefficient at all) from the rest' % (fi.qualname, norm(st.test)))
                    elif _early_exit_guard(ka, fi, st):
                        r.ok(construct=fi.fq + ':exit-guard', sample='%s: `%s` returns before statements that only define coefficients which do not exist when it holds'
                                                                     % (fi.qualname, norm(st.test)))
                    elif _harmless_degree_guard(ka, st):
                        r.ok(construct=fi.fq + ':work-guard', sample='%s: `%s` only guards statements that define coefficients which do not exist / are never read '
                                                                     'when the guard fails' % (fi.qualname, norm(st.test)))
                    elif _existence_guard(ka, st):
                        r.ok(construct=fi.fq + ':existence-guard', sample='%s: `%s` is the existence condition of the coefficient index its body touches'
                                                                          % (fi.qualname, norm(st.test)))
                    elif key in DEGREE_GUARDS:
                        r.note('%s: guard `%s` on the truncation degree accepted: %s' % (fi.qualname, norm(st.test), DEGREE_GUARDS[key]))
                        r.ok(construct=fi.fq + ':guard')
                    else:
                        r.unknown(fi.site(st), 'guard `%s` depends on the truncation degree and is not in the table of justified guards' % norm(st.test))
        if prop in ('C12', 'C08'):
            for k, why in UNANALYSED.items():
                r.note('unanalysed: %s - %s' % (k, why))
        r.stats = {'kernels': n_k}
        r.floor = {'C01': 500, 'C02': 60, 'C07': 120, 'C08': 200, 'C12': 1000, 'C13': 20}[prop]
        return r
    rule.__name__ = 'rule_grade_' + prop
    return rule


# ------------------------------------------------------------------ ALIAS
ALIAS_TESTED = ['_mul', '_truediv', '_exp', '_log', '_sqrt', '_square', '_reciprocal', '_absolute', '_negative', '_sign']
INPLACE = ['__iadd__', '__isub__', '__imul__', '__itruediv__']


def _snapshot_idiom(fi, W, R):
    """`if numpy.may_share_memory(<W>, <r>): <r> = <r>.copy()` for a local r bound to R"""
    for n in walk_no_nested(fi.node):
        if isinstance(n, ast.If) and any(isinstance(c, ast.Call) and (dotted_name(c.func) or '').split('.')[-1] in ('may_share_memory', 'shares_memory')
                                         for c in ast.walk(n.test)):
            for b in n.body:
                if isinstance(b, ast.Assign) and isinstance(b.value, ast.Call) and isinstance(b.value.func, ast.Attribute) \
                        and b.value.func.attr == 'copy' and norm(b.targets[0]) == norm(b.value.func.value):
                    return norm(b.targets[0])
    return None


def _aliased_call_sites(ctx):
    """calls of kernels that pass the same expression as `out` and as an input"""
    out = []
    m = ctx.model
    for fi in m.all_functions():
        if not fi.module.startswith('algopy.utpm'):
            continue
        for c in walk_no_nested(fi.node):
            if not (isinstance(c, ast.Call) and isinstance(c.func, ast.Attribute) and c.func.attr.startswith('_') and not c.func.attr.startswith('__')):
                continue
            callee = m.lookup_method('UTPM', c.func.attr)
            if callee is None:
                continue
            params = callee.value_params()
            bound = {}
            for i, a in enumerate(c.args):
                if i < len(params):
                    bound[params[i]] = a
            for k in c.keywords:
                if k.arg:
                    bound[k.arg] = k.value
            o = bound.get('out')
            if o is None:
                continue
            for p, a in bound.items():
                if p != 'out' and norm(a) == norm(o) and isinstance(a, (ast.Name, ast.Attribute)):
                    out.append((fi, c, callee, p))
    return out


def rule_alias(ctx):
    r = RuleResult('ALIAS', 'where the library promises alias safety (in-place operators with the right operand aliasing the left, kernels called '
                            'with out aliasing an input, the kernels covered by Test_aliasing) no coefficient of the input is read after the '
                            'aliased output coefficient of the same index has been written (later statement, or later iteration in the '
                            'loop\'s actual order)')
    from .grading import alias_hazards
    m = ctx.model
    res = analyse_all(ctx)
    ci = m.cls('RawAlgorithmsMixIn')

    def check(ka, fi, W, R, why):
        hz = alias_hazards(ka, W, R)
        if hz:
            for wst, rnode, wit in hz[:3]:
                r.bad(Finding('ALIAS', fi.fq, '%s<-%s:%s' % (W, R, norm(wst)[:80]),
                              '%s (%s): `%s` writes %s, and `%s` later reads %s at the same coefficient index (%s): if %s aliases %s the read '
                              'sees the new value' % (fi.qualname, why, norm(wst)[:70], W, norm(rnode)[:50], R,
                                                      ', '.join('%s=%s' % (k.split('@')[0], v) for k, v in sorted(wit.items()) if not k.endswith("'"))[:80], R, W),
                              fi.file, getattr(wst, 'lineno', fi.lineno)))
        else:
            nw = len([w for w in ka.wlog if w[0] == W])
            nr = len([x for x in ka.rlog if x.arr == R])
            r.ok(construct='%s:%s<-%s' % (fi.fq, W, R), nontrivial=bool(nw and nr),
                 sample='%s (%s): %d write(s) of %s vs %d read(s) of %s: no read-after-write on an equal index' % (fi.qualname, why, nw, W, nr, R))

    # (a) in-place operators
    for name in INPLACE:
        key = 'UTPM.' + name
        if key not in res:
            r.unknown(key, 'in-place operator not analysed by E2')
            continue
        ka = res[key][1]
        fi = ka.fi
        snap = _snapshot_idiom(fi, 'self.data', 'rhs.data')
        readers = [g for g in ka.gvars if g in ('rhs.data', 'rhs_data') or getattr(ka, 'alias_of', {}).get(g) in ('rhs.data',)]
        # names bound to the object itself (`retval = self`) write the same storage
        ws = ['self.data'] + sorted(g for g in ka.gvars if getattr(ka, 'alias_of', {}).get(g) == 'self.data')
        # the pair returned by `_broadcast_arrays(self.data, rhs.data)` are views of the two operands (whatever the locals are called)
        for st in walk_no_nested(fi.node):
            if isinstance(st, ast.Assign) and len(st.targets) == 1 and isinstance(st.targets[0], ast.Tuple) and len(st.targets[0].elts) == 2 \
                    and all(isinstance(e_, ast.Name) for e_ in st.targets[0].elts) and isinstance(st.value, ast.Call) \
                    and (dotted_name(st.value.func) or '').split('.')[-1] in ('_broadcast_arrays', 'broadcast_arrays') and len(st.value.args) == 2:
                a0, a1 = norm(st.value.args[0]), norm(st.value.args[1])
                t0, t1 = st.targets[0].elts[0].id, st.targets[0].elts[1].id
                if a0 == 'self.data' and t0 in ka.gvars and t0 not in ws:
                    ws.append(t0)
                if a1 in ('rhs.data', '%s.data' % (fi.params[1] if len(fi.params) > 1 else 'rhs')) and t1 in ka.gvars and t1 not in readers:
                    readers.append(t1)
        for st in walk_no_nested(fi.node):
            if isinstance(st, ast.Assign) and isinstance(st.value, ast.Name) and st.value.id == 'self':
                for t in st.targets:
                    if isinstance(t, ast.Name) and (t.id + '.data') in ka.gvars:
                        ws.append(t.id + '.data')
        for R in sorted(set(readers)):
            if snap is not None and R == snap:
                r.ok(construct=fi.fq + ':snapshot', nontrivial=True,
                     sample='%s: `%s` is replaced by a copy when it may share memory with self.data (snapshot idiom)' % (fi.qualname, snap))
                continue
            for W in ws:
                check(ka, fi, W, R, 'x op= x')
    # (b) kernels of Test_aliasing: every out-role array against every input array
    for k in ALIAS_TESTED:
        if k not in res:
            r.unknown(k, 'kernel not analysed by E2')
            continue
        ka = res[k][1]
        fi = ka.fi
        outs = [g.name for g in ka.gvars.values() if g.role == 'out']
        ins = [g.name for g in ka.gvars.values() if g.role == 'in']
        for W in outs:
            for R in ins:
                check(ka, fi, W, R, 'out aliasing %s' % R)
    # (c) aliased internal call sites
    for caller, c, callee, p in _aliased_call_sites(ctx):
        k = callee.name
        if k not in res:
            r.note('%s calls %s with out aliasing `%s`; callee outside the E2 kernel table' % (caller.qualname, k, p))
            continue
        ka = res[k][1]
        outs = [g.name for g in ka.gvars.values() if g.role == 'out']
        for W in outs:
            check(ka, ka.fi, W, p, 'called from %s as `%s`' % (caller.qualname, norm(c)[:50]))
    r.floor = 15
    return r
