"""
Rules built on E2 (graded-recurrence checker): C12 (O1, O2, C12.D), and the
O3/O4 clauses of C01, C02, C07, C08; plus the ALIAS rule of C14/C02.
"""
import ast
from .core import Finding, RuleResult
from .model import AnalysisError, dotted_name, norm, walk_no_nested
from .grading import KernelAnalysis

ALGO = 'algopy.utpm.algorithms'
UTPM_MOD = 'algopy.utpm.utpm'

# kernel -> group.  Every name here must exist (anchor), otherwise exit 2.
GROUPS = {
    'elementary': ['_exp', '_log', '_sqrt', '_pow_real', '_sincos', '_tansec2', '_arcsin', '_arccos', '_arctan',
                   '_sinhcosh', '_tanhsech2', '_reciprocal', '_square', '_absolute', '_sign', '_minimum', '_maximum',
                   '_botched_clip', '_negative'],
    'helpers': ['_black_f_white_fprime', '_eval_slow_generic', '_taylor_polynomials_of_ode_solutions', '_plus_const'],
    'arith': ['_mul', '_amul', '_itruediv', '_truediv'],
    'linalg': ['_dot', '_dot_non_UTPM_x', '_dot_non_UTPM_y', '_outer', '_outer_non_utpm_x', '_outer_non_utpm_y',
               '_inv', '_solve', '_solve_non_UTPM_x', '_solve_non_UTPM_A', '_mul_non_UTPM_x', '_diag'],
    'factor': ['_cholesky', '_qr_rectangular', '_qr_full', '_eigh1'],
}
MODULE_LEVEL = {'_black_f_white_fprime', '_eval_slow_generic', '_taylor_polynomials_of_ode_solutions', '_plus_const'}
RAW = {'_dot_non_UTPM_x': {'x_data'}, '_dot_non_UTPM_y': {'y_data'}, '_outer_non_utpm_x': {'x'},
       '_outer_non_utpm_y': {'y'}, '_solve_non_UTPM_x': {'x_data'}, '_solve_non_UTPM_A': {'A_data'},
       '_mul_non_UTPM_x': {'x_data'}}

# coefficient loops written directly in utpm.py: method -> (group, graded array names)
UTPM_LEVEL = {
    '__add__': ('arith', ['self.data', 'rhs.data', 'retval.data']),
    '__sub__': ('arith', ['self.data', 'rhs.data', 'retval.data']),
    '__mul__': ('arith', ['self.data', 'rhs.data']),
    '__truediv__': ('arith', ['self.data', 'rhs.data']),
    '__iadd__': ('arith', ['self.data', 'rhs.data']),
    '__isub__': ('arith', ['self.data', 'rhs.data']),
    '__imul__': ('arith', ['self.data', 'rhs.data']),
    '__itruediv__': ('arith', ['self.data', 'rhs.data', 'retval.data']),
    'lu': ('factor', ['A.data', 'L.data', 'U.data', 'W.data']),
    'lu2': ('factor', ['A.data', 'L.data', 'U.data', 'PIV.data']),
    'lu_factor': ('factor', ['A.data', 'LU.data', 'PIV.data']),
    'trace': ('maps', ['x.data']),
    'tril': ('maps', ['x.data', 'out.data']),
    'triu': ('maps', ['x.data', 'out.data']),
    'tile': ('maps', ['A.data', 'B.data']),
    'fft': ('maps', ['a.data', 'r.data']),
    'ifft': ('maps', ['a.data', 'r.data']),
}

UNANALYSED = {
    '_eigh': 'block deflation shifts the grading by the deflation level (relaxed problems); named in C12 itself',
    'UTPM.svd': 'compound, built on eigh of the Jordan-Wielandt matrix',
    'UTPM.eig': 'first order only (asserts D <= 2)',
    '_floordiv': 'not part of any property (L\'Hospital shift with a while loop)',
    'pytpcore branches': 'C extension absent in this sandbox; the pure-NumPy branch is what runs',
}

# guards on the truncation degree that are justified (function, normalised test) -> reason
DEGREE_GUARDS = {
    ('_absolute', 'D > 1'): 'skips a temporary (sign of x_0) that only orders >= 1 read',
    ('_taylor_polynomials_of_ode_solutions', 'k < d'): 'skips e_data[k] for the last order, which no retained coefficient reads',
}

PROP_GROUPS = {
    'C01': (['elementary', 'helpers'], ('O3', 'O4', 'CTRL', 'RESHAPE')),
    'C02': (['arith'], ('O3', 'O4', 'CTRL', 'RESHAPE')),
    'C07': (['linalg', 'det'], ('O3', 'O4', 'CTRL', 'RESHAPE')),
    'C08': (['factor'], ('O3', 'O4', 'CTRL', 'RESHAPE')),
    'C12': (['elementary', 'helpers', 'arith', 'linalg', 'factor', 'maps'], ('O1', 'O2', 'C12.D', 'CTRL')),
    'C13': (['maps'], ('O1', 'O3')),
}


def analyse_all(ctx):
    if 'E2' in ctx.cache:
        return ctx.cache['E2']
    m = ctx.model
    out = {}
    ci = m.cls('RawAlgorithmsMixIn')
    if ci is None:
        raise AnalysisError('E2.anchor', ALGO, 'class RawAlgorithmsMixIn vanished')
    for grp, names in GROUPS.items():
        for n in names:
            if n in MODULE_LEVEL:
                fi = m.func(ALGO, n)
            else:
                fi = ci.methods.get(n)
                if fi is None:
                    raise AnalysisError('E2.anchor', ALGO + ':' + n, 'kernel vanished')
            ka = KernelAnalysis(fi, raw_params=RAW.get(n, ()), model=m).run()
            out[n] = (grp, ka)
    for n, (grp, graded) in UTPM_LEVEL.items():
        fi = m.lookup_method('UTPM', n)
        if fi is None:
            raise AnalysisError('E2.anchor', UTPM_MOD + ':UTPM.' + n, 'method vanished')
        ka = KernelAnalysis(fi, graded_params=graded, model=m)
        for g in graded:
            if g not in ka.gvars:
                ka._decl(g, 'in')
        ka.run()
        out['UTPM.' + n] = (grp, ka)
    ctx.cache['E2'] = out
    return out


def rule_grade(prop):
    groups, obs = PROP_GROUPS[prop]

    def rule(ctx):
        r = RuleResult('%s.grade' % prop, {
            'C01': 'every coefficient assignment of the elementary-function kernels is homogeneous in the power-series grading '
                   '(O3) and its summation ranges are maximal (O4: no missing top/bottom term)',
            'C02': 'the convolution kernels of *, / and the in-place operators are homogeneous (O3) with maximal ranges (O4)',
            'C07': 'dot/outer/inv/solve kernels: every assignment is homogeneous (O3) with maximal summation ranges (O4)',
            'C08': 'QR / Cholesky / LU / eigh1 recurrences: residuals and factor coefficients are homogeneous (O3), ranges maximal (O4)',
            'C12': 'every coefficient index read or written stays inside [0, D-1] for all loop values (O1), every read is of an '
                   'already available coefficient of weight <= the order being defined (O2), and no index depends on the truncation degree (C12.D)',
            'C13': 'per-slice maps (trace, tril, triu, tile, fft, ifft) write coefficient d from coefficient d only',
        }[prop])
        res = analyse_all(ctx)
        n_k = 0
        for name, (grp, ka) in sorted(res.items()):
            if grp not in groups and not ('det' in groups and name == 'UTPM.lu2'):
                continue
            n_k += 1
            fi = ka.fi
            mine = [i for i in ka.issues if i.ob in obs]
            others = [i for i in ka.issues if i.ob not in obs]
            for i in mine:
                r.bad(Finding('%s.%s' % (prop, i.ob), fi.fq, norm(i.node)[:160] if isinstance(i.node, ast.AST) else str(i.node),
                              '[%s] %s: %s' % (i.ob, fi.qualname, i.msg), fi.file, getattr(i.node, 'lineno', fi.lineno),
                              extra={'witness': {k: str(v) for k, v in (i.witness or {}).items()}}))
            for node, why in ka.unknown:
                if 'O3' not in obs and ('inhomogeneous' in why or 'weights' in why):
                    continue        # a homogeneity failure is decided (and reported) under the properties that own O3
                r.unknown(fi.site(node), why)
            # obligations: count those of this analysis (all kinds are needed to reach a verdict)
            ok = ka.discharged
            r.instances += ok
            r.holding += ok
            if ka.stores:
                r.nontrivial.add(fi.fq)
            for s in ka.samples[:2]:
                if len(r.samples) < 6:
                    r.samples.append(s)
            # guards on the truncation degree
            if prop == 'C12':
                for st in ka.guards_on_degree:
                    key = (fi.name, norm(st.test))
                    if all(isinstance(b, ast.Raise) for b in st.body) and not st.orelse:
                        r.ok(construct=fi.fq + ':shape-guard', sample='%s: `%s` only raises (input validation)' % (fi.qualname, norm(st.test)))
                    elif key in DEGREE_GUARDS:
                        r.note('%s: guard `%s` on the truncation degree accepted: %s' % (fi.qualname, norm(st.test), DEGREE_GUARDS[key]))
                        r.ok(construct=fi.fq + ':guard')
                    else:
                        r.unknown(fi.site(st), 'guard `%s` depends on the truncation degree and is not in the table of justified guards' % norm(st.test))
        if prop in ('C12', 'C08'):
            for k, why in UNANALYSED.items():
                r.note('unanalysed: %s - %s' % (k, why))
        r.stats = {'kernels': n_k}
        r.floor = {'C01': 500, 'C02': 60, 'C07': 120, 'C08': 200, 'C12': 1000, 'C13': 30}[prop]
        return r
    rule.__name__ = 'rule_grade_' + prop
    return rule
