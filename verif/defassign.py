"""
Flow-sensitive definite-assignment analysis (must-defined names) and name
resolution check for one function.

Reports, for every Name load in the function body:
  * 'unbound-local': the name is a local (assigned somewhere in the function)
    but is not definitely assigned on every non-raising path reaching the read;
  * 'unresolved': the name is neither a local, a parameter, a module-level /
    imported name, a name of an enclosing function, nor a builtin.
"""
import ast
import builtins
from .model import walk_no_nested

BUILTINS = set(dir(builtins))


def _targets(t, out):
    if isinstance(t, ast.Name):
        out.add(t.id)
    elif isinstance(t, (ast.Tuple, ast.List)):
        for x in t.elts:
            _targets(x, out)
    elif isinstance(t, ast.Starred):
        _targets(t.value, out)


def local_names(fn):
    loc = set()
    for n in walk_no_nested(fn):
        if isinstance(n, ast.Name) and isinstance(n.ctx, (ast.Store, ast.Del)):
            loc.add(n.id)
        elif isinstance(n, (ast.Import, ast.ImportFrom)):
            for al in n.names:
                loc.add((al.asname or al.name).split('.')[0])
        elif isinstance(n, (ast.FunctionDef, ast.ClassDef)):
            loc.add(n.name)
        elif isinstance(n, ast.ExceptHandler) and n.name:
            loc.add(n.name)
    # comprehension variables are scoped to the comprehension
    for n in walk_no_nested(fn):
        if isinstance(n, (ast.ListComp, ast.SetComp, ast.GeneratorExp, ast.DictComp)):
            for g in n.generators:
                s = set()
                _targets(g.target, s)
                # they are local to the comprehension; remove unless also assigned elsewhere
                for name in s:
                    stores = [x for x in walk_no_nested(fn) if isinstance(x, ast.Name) and x.id == name
                              and isinstance(x.ctx, ast.Store)]
                    comp_stores = [x for x in ast.walk(n) if isinstance(x, ast.Name) and x.id == name
                                   and isinstance(x.ctx, ast.Store)]
                    if len(stores) == len(comp_stores):
                        loc.discard(name)
    return loc


class DefAssign:
    def __init__(self, fi, module_names, enclosing=(), may=False):
        self.fi = fi
        self.may = may      # False: must-defined (possibly-unbound reads); True: may-defined (certainly-unbound reads)
        self.fn = fi.node
        self.locals = local_names(self.fn)
        a = self.fn.args
        self.params = set(x.arg for x in a.posonlyargs + a.args + a.kwonlyargs)
        if a.vararg:
            self.params.add(a.vararg.arg)
        if a.kwarg:
            self.params.add(a.kwarg.arg)
        self.module_names = module_names
        self.enclosing = set(enclosing)
        self.problems = []      # (kind, name, node)

    def run(self):
        self.block(self.fn.body, set(self.params))
        return self.problems

    # defined: set of definitely assigned names, or None when the path ended
    def block(self, body, defined):
        for st in body:
            if defined is None:
                return None
            defined = self.stmt(st, defined)
        return defined

    def _stored(self, body):
        out = set()
        for st in body:
            for n in [st] + list(walk_no_nested(st)):
                if isinstance(n, ast.Name) and isinstance(n.ctx, ast.Store):
                    out.add(n.id)
                elif isinstance(n, (ast.Import, ast.ImportFrom)):
                    for al in n.names:
                        out.add((al.asname or al.name).split('.')[0])
        return out

    def use(self, expr, defined, comp_bound=frozenset()):
        if expr is None:
            return
        for n in self._loads(expr, comp_bound):
            name, node = n
            if name in defined or name in self.params:
                continue
            if name in self.locals:
                self.problems.append(('unbound-local', name, node))
            elif name in self.enclosing or name in self.module_names or name in BUILTINS:
                continue
            else:
                self.problems.append(('unresolved', name, node))

    def _loads(self, expr, bound):
        """yield (name, node) for Name loads, honouring comprehension scopes"""
        out = []

        def rec(n, bound):
            if isinstance(n, ast.Name):
                if isinstance(n.ctx, ast.Load) and n.id not in bound:
                    out.append((n.id, n))
                return
            if isinstance(n, (ast.ListComp, ast.SetComp, ast.GeneratorExp, ast.DictComp)):
                b = set(bound)
                for g in n.generators:
                    rec(g.iter, b)
                    s = set()
                    _targets(g.target, s)
                    b |= s
                    for c in g.ifs:
                        rec(c, b)
                if isinstance(n, ast.DictComp):
                    rec(n.key, b)
                    rec(n.value, b)
                else:
                    rec(n.elt, b)
                return
            if isinstance(n, ast.Lambda):
                b = set(bound) | set(x.arg for x in n.args.args)
                rec(n.body, b)
                return
            if isinstance(n, (ast.FunctionDef, ast.ClassDef)):
                return
            for c in ast.iter_child_nodes(n):
                rec(c, bound)
        rec(expr, set(bound))
        return out

    def stmt(self, st, d):
        if isinstance(st, ast.Assign):
            self.use(st.value, d)
            nd = set(d)
            for t in st.targets:
                if not isinstance(t, (ast.Name, ast.Tuple, ast.List)):
                    self.use(t, d)
                elif isinstance(t, (ast.Tuple, ast.List)):
                    for x in t.elts:
                        if not isinstance(x, (ast.Name, ast.Starred)):
                            self.use(x, d)
                _targets(t, nd)
            return nd
        if isinstance(st, ast.AugAssign):
            self.use(st.value, d)
            self.use(ast.copy_location(ast.Name(id=st.target.id, ctx=ast.Load()), st.target)
                     if isinstance(st.target, ast.Name) else st.target, d)
            nd = set(d)
            _targets(st.target, nd)
            return nd
        if isinstance(st, ast.AnnAssign):
            self.use(st.value, d)
            nd = set(d)
            if st.value is not None:
                _targets(st.target, nd)
            return nd
        if isinstance(st, ast.Expr):
            self.use(st.value, d)
            return d
        if isinstance(st, ast.Return):
            self.use(st.value, d)
            return None
        if isinstance(st, ast.Raise):
            n0 = len(self.problems)
            self.use(st.exc, d)
            self.problems[n0:] = [(k + '-in-raise', n, node) for k, n, node in self.problems[n0:]]
            return None
        if isinstance(st, ast.Assert):
            self.use(st.test, d)
            return d
        if isinstance(st, ast.If):
            self.use(st.test, d)
            a = self.block(st.body, set(d))
            b = self.block(st.orelse, set(d))
            if a is None:
                return b
            if b is None:
                return a
            return (a | b) if self.may else (a & b)
        if isinstance(st, ast.For):
            self.use(st.iter, d)
            inner = set(d)
            _targets(st.target, inner)
            if self.may:
                # names assigned anywhere in the body may be defined on re-entry
                inner = set(inner) | self._stored(st.body)
            r = self.block(st.body, set(inner))
            if st.orelse:
                self.block(st.orelse, set(d))
            if self.may:
                return d | inner | self._stored(st.body)
            return d        # the loop may run zero times
        if isinstance(st, ast.While):
            self.use(st.test, d)
            if self.may:
                st2 = self._stored(st.body)
                self.block(st.body, set(d) | st2)
                return d | st2
            self.block(st.body, set(d))
            return d
        if isinstance(st, ast.Try):
            a = self.block(st.body, set(d))
            res = a
            for h in st.handlers:
                hd = set(d)
                if h.name:
                    hd.add(h.name)
                r = self.block(h.body, hd)
                if r is not None:
                    res = r if res is None else ((res | r) if self.may else (res & r))
            if st.orelse and a is not None:
                r = self.block(st.orelse, set(a))
                res = r if r is not None else res
            if st.finalbody:
                res = self.block(st.finalbody, res if res is not None else set(d))
            return res
        if isinstance(st, ast.With):
            nd = set(d)
            for it in st.items:
                self.use(it.context_expr, nd)
                if it.optional_vars is not None:
                    _targets(it.optional_vars, nd)
            return self.block(st.body, nd)
        if isinstance(st, (ast.FunctionDef, ast.ClassDef)):
            nd = set(d)
            nd.add(st.name)
            return nd
        if isinstance(st, (ast.Import, ast.ImportFrom)):
            nd = set(d)
            for al in st.names:
                nd.add((al.asname or al.name).split('.')[0])
            return nd
        if isinstance(st, ast.Delete):
            return d
        return d


def check_function(model, fi, may=False):
    mi = model.modules[fi.module]
    names = set(model.module_namespace(fi.module).keys()) | set(mi.imports) | set(mi.assigns) \
        | set(mi.functions) | set(mi.classes)
    # names bound at module level inside for/with/if (loop variables etc.)
    for n in walk_no_nested(mi.tree):
        if isinstance(n, ast.Name) and isinstance(n.ctx, ast.Store):
            names.add(n.id)
    enclosing = set()
    p = fi.parent
    while p is not None:
        enclosing |= local_names(p.node) | set(p.params)
        p = p.parent
    da = DefAssign(fi, names, enclosing, may=may)
    probs = da.run()
    # de-duplicate per (kind, name)
    seen = set()
    out = []
    for k, n, node in probs:
        if (k, n) not in seen:
            seen.add((k, n))
            out.append((k, n, node))
    return out
