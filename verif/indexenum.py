"""
Index-structure enumeration for packing loops (symvec / vecsym family).

The functions decided here move matrix entries to vector positions with loop nests whose bounds depend only on the
matrix dimension.  The checker enumerates the *index structure* of such a nest for a fixed small dimension: it
interprets `for` over range / enumerate / zip / reversed / module-level index generators, integer assignments and
`if` tests over integers and option strings, and records, for every other statement, which vector position and which
matrix index pairs appear together in its subscripts.  No array value is ever computed and nothing from /repo is
executed: array expressions are opaque, only integer index expressions are folded.
"""
import ast
from .model import norm, dotted_name


class NotEvaluable(Exception):
    pass


class _Abort(Exception):
    """path ends (raise / return)"""


class IndexEnum:
    def __init__(self, model, modname, presets, budget=20000):
        self.model = model
        self.modname = modname
        self.presets = dict(presets)
        self.env = dict(presets)
        self.events = []            # (vector position, sorted tuple of (i, j) pairs)
        self.unknown = []           # constructs that could not be interpreted
        self.budget = budget
        self.seqs = {}              # names bound to index sequences (lists of ints / tuples)
        self.facts = {}             # normalised expression text -> integer (shape facts such as `a_data.ndim`)
        self.returned = None        # the Return statement that ended the run

    # -------------------------------------------------------------- expressions
    def ev(self, e, env=None):
        env = self.env if env is None else env
        if self.facts and not isinstance(e, (ast.Constant, ast.Name)) and norm(e) in self.facts:
            return self.facts[norm(e)]
        if isinstance(e, ast.Call) and isinstance(e.func, ast.Name) and e.func.id == 'tuple' and len(e.args) == 1:
            return tuple(self.ev_iter(e.args[0], env))
        if isinstance(e, ast.BinOp) and isinstance(e.op, ast.Add):
            try:
                a, b = self.ev(e.left, env), self.ev(e.right, env)
                if isinstance(a, tuple) and isinstance(b, tuple):
                    return a + b
            except NotEvaluable:
                pass
        if isinstance(e, ast.Constant):
            if isinstance(e.value, (int, str)) and not isinstance(e.value, bool):
                return e.value
            raise NotEvaluable(norm(e))
        if isinstance(e, ast.Call) and not e.keywords:
            f = dotted_name(e.func)
            # operator.index / int of an integer is that integer
            if f in ('operator.index', 'int') and len(e.args) == 1:
                v = self.ev(e.args[0], env)
                if isinstance(v, int) and not isinstance(v, bool):
                    return v
                raise NotEvaluable(norm(e))
            if f in ('numpy.tril_indices', 'numpy.triu_indices') and len(e.args) == 1:
                # the index arrays NumPy documents: row-major enumeration of the lower / upper triangle (k = 0, square)
                n_ = self.ev(e.args[0], env)
                if isinstance(n_, int) and not isinstance(n_, bool) and 0 <= n_ <= 64:
                    if f.endswith('tril_indices'):
                        pairs = [(i, j) for i in range(n_) for j in range(i + 1)]
                    else:
                        pairs = [(i, j) for i in range(n_) for j in range(i, n_)]
                    return (tuple(p_[0] for p_ in pairs), tuple(p_[1] for p_ in pairs))
                raise NotEvaluable(norm(e))
            if f == 'len' and len(e.args) == 1:
                v = self.ev(e.args[0], env)
                if isinstance(v, tuple):
                    return len(v)
                raise NotEvaluable(norm(e))
            if f is not None and f not in ('range', 'enumerate', 'zip', 'reversed', 'list', 'tuple'):
                tgt = self.model.resolve_dotted(self.modname, f)
                if tgt is not None and tgt[0] == 'func':
                    return self.call_function(tgt[1], [self.ev(a, env) for a in e.args])
        if isinstance(e, ast.Subscript) and isinstance(e.slice, (ast.Constant, ast.UnaryOp, ast.Name)) and not isinstance(e.value, ast.Name):
            # an element of a tuple of indices: f(n)[0]
            base = self.ev(e.value, env)
            k = self.ev(e.slice, env)
            if isinstance(base, tuple) and isinstance(k, int) and -len(base) <= k < len(base):
                return base[k]
            raise NotEvaluable(norm(e))
        if isinstance(e, ast.Name):
            if e.id in env:
                return env[e.id]
            if e.id in self.seqs:
                return tuple(self.seqs[e.id])
            raise NotEvaluable(e.id)
        if isinstance(e, ast.Tuple):
            out = []
            for x in e.elts:
                if isinstance(x, ast.Starred):
                    try:
                        out.extend(self.ev_iter(x.value, env))
                    except NotEvaluable:
                        out.extend(self.ev(x.value, env))
                else:
                    out.append(self.ev(x, env))
            return tuple(out)
        if isinstance(e, ast.UnaryOp) and isinstance(e.op, ast.USub):
            return -self.ev(e.operand, env)
        if isinstance(e, ast.UnaryOp) and isinstance(e.op, ast.Not):
            return not self.ev(e.operand, env)
        if isinstance(e, ast.BinOp):
            a, b = self.ev(e.left, env), self.ev(e.right, env)
            if not (isinstance(a, int) and isinstance(b, int)):
                raise NotEvaluable(norm(e))
            if isinstance(e.op, ast.Add):
                return a + b
            if isinstance(e.op, ast.Sub):
                return a - b
            if isinstance(e.op, ast.Mult):
                return a * b
            if isinstance(e.op, ast.FloorDiv) and b != 0:
                return a // b
            if isinstance(e.op, ast.Mod) and b != 0:
                return a % b
            raise NotEvaluable(norm(e))
        if isinstance(e, ast.Compare) and len(e.ops) == 1:
            a, b = self.ev(e.left, env), self.ev(e.comparators[0], env)
            op = e.ops[0]
            if type(a) is not type(b):
                if isinstance(op, ast.Eq):
                    return False
                if isinstance(op, ast.NotEq):
                    return True
                raise NotEvaluable(norm(e))
            table = {ast.Eq: a == b, ast.NotEq: a != b}
            if isinstance(a, int):
                table.update({ast.Lt: a < b, ast.LtE: a <= b, ast.Gt: a > b, ast.GtE: a >= b})
            if type(op) in table:
                return table[type(op)]
            raise NotEvaluable(norm(e))
        if isinstance(e, ast.Compare) and len(e.ops) == 1 and isinstance(e.ops[0], (ast.In, ast.NotIn)):
            raise NotEvaluable(norm(e))
        if isinstance(e, ast.BoolOp):
            vals = [self.ev(v, env) for v in e.values]
            return all(vals) if isinstance(e.op, ast.And) else any(vals)
        if isinstance(e, ast.IfExp):
            t = self.ev(e.test, env)
            if not isinstance(t, bool):
                raise NotEvaluable(norm(e.test))
            return self.ev(e.body if t else e.orelse, env)
        raise NotEvaluable(norm(e))

    def ev_iter(self, e, env=None):
        env = self.env if env is None else env
        if isinstance(e, ast.Call) and not e.keywords:
            f = dotted_name(e.func)
            if f == 'range':
                a = [self.ev(x, env) for x in e.args]
                if not all(isinstance(x, int) for x in a) or not 1 <= len(a) <= 3:
                    raise NotEvaluable(norm(e))
                return list(range(*a))
            if f == 'enumerate' and 1 <= len(e.args) <= 2:
                start = self.ev(e.args[1], env) if len(e.args) == 2 else 0
                return [(start + i, x) for i, x in enumerate(self.ev_iter(e.args[0], env))]
            if f == 'zip':
                return list(zip(*[self.ev_iter(a, env) for a in e.args]))
            if f == 'reversed' and len(e.args) == 1:
                return list(reversed(self.ev_iter(e.args[0], env)))
            if f in ('list', 'tuple') and len(e.args) == 1:
                return self.ev_iter(e.args[0], env)
            if f is not None and f.split('.')[-1] in ('combinations_with_replacement', 'combinations', 'product', 'permutations') \
                    and (f.startswith('itertools.') or '.' not in f):
                import itertools
                fn = getattr(itertools, f.split('.')[-1])
                if f.endswith('product'):
                    return [tuple(x) for x in fn(*[self.ev_iter(a, env) for a in e.args])]
                if len(e.args) == 2:
                    return [tuple(x) for x in fn(self.ev_iter(e.args[0], env), self.ev(e.args[1], env))]
            if f is not None:
                tgt = self.model.resolve_dotted(self.modname, f)
                if tgt is not None and tgt[0] == 'func':
                    return self.run_generator(tgt[1], [self.ev(a, env) for a in e.args])
        if isinstance(e, ast.Subscript) and isinstance(e.slice, ast.Slice) and e.slice.lower is None and e.slice.upper is None \
                and e.slice.step is not None and norm(e.slice.step) == '-1':
            return list(reversed(self.ev_iter(e.value, env)))
        if isinstance(e, (ast.ListComp, ast.GeneratorExp)):
            out = []

            def gen(i, scope):
                if i == len(e.generators):
                    out.append(self.ev(e.elt, scope))
                    return
                g = e.generators[i]
                for v in self.ev_iter(g.iter, scope):
                    sc = dict(scope)
                    saved = self.env
                    self.env = sc
                    try:
                        self.bind(g.target, v)
                    finally:
                        self.env = saved
                    if all(self.ev(c, sc) for c in g.ifs):
                        gen(i + 1, sc)
            gen(0, dict(env))
            return out
        if isinstance(e, (ast.List, ast.Tuple)):
            out = []
            for x in e.elts:
                if isinstance(x, ast.Starred):
                    out.extend(self.ev(x.value, env))
                else:
                    out.append(self.ev(x, env))
            return out
        if isinstance(e, ast.Name) and e.id in self.seqs:
            return self.seqs[e.id]
        raise NotEvaluable(norm(e))

    PURE_DECORATORS = ('functools.lru_cache', 'functools.cache', 'lru_cache', 'cache')

    def call_function(self, fi, args):
        """value of a module-level index function for integer / tuple arguments: its body is interpreted like any other
        (integer assignments, loops, tests); a memoising decorator does not change the value of a function of integers"""
        if any(isinstance(n, (ast.Yield, ast.YieldFrom)) for n in ast.walk(fi.node)):
            return tuple(self.run_generator(fi, args))
        for d in fi.node.decorator_list:
            dn = dotted_name(d.func if isinstance(d, ast.Call) else d) or ''
            r_ = self.model.resolve_dotted(fi.module, dn) if dn else None
            full = r_[1] if (r_ is not None and r_[0] == 'ext') else dn
            if full not in self.PURE_DECORATORS:
                raise NotEvaluable('call of %s (decorator %s)' % (fi.qualname, dn))
        if len(args) != len(fi.params):
            raise NotEvaluable('call of %s: arity' % fi.qualname)
        self._depth = getattr(self, '_depth', 0)
        if self._depth > 4:
            raise NotEvaluable('call depth')
        sub = IndexEnum(self.model, fi.module, {}, budget=self.budget)
        sub._depth = self._depth + 1
        sub.env = dict(zip(fi.params, args))
        try:
            sub.run(fi.node.body)
        except _Abort:
            pass
        self.budget = sub.budget
        if sub.unknown or sub.events or sub.returned is None or sub.returned.value is None:
            raise NotEvaluable('call of %s: %s' % (fi.qualname, (sub.unknown or ['not an index function'])[0]))
        try:
            return sub.ev(sub.returned.value)
        except NotEvaluable:
            return tuple(sub.ev_iter(sub.returned.value))

    def run_generator(self, fi, args):
        if not any(isinstance(n, (ast.Yield, ast.YieldFrom)) for n in ast.walk(fi.node)):
            return list(self.call_function(fi, args))
        sub = IndexEnum(self.model, fi.module, {}, budget=self.budget)
        sub.env = dict(zip(fi.params, args))
        sub.yields = []
        try:
            sub.run(fi.node.body, in_generator=True)
        except _Abort:
            pass
        if sub.unknown:
            raise NotEvaluable('generator %s: %s' % (fi.qualname, sub.unknown[0]))
        self.budget = sub.budget
        return sub.yields

    # --------------------------------------------------------------- statements
    def bind(self, tgt, val):
        if isinstance(tgt, ast.Name):
            self.env[tgt.id] = val
        elif isinstance(tgt, (ast.Tuple, ast.List)) and isinstance(val, tuple) and len(val) == len(tgt.elts):
            for t, v in zip(tgt.elts, val):
                self.bind(t, v)
        else:
            raise NotEvaluable('target ' + norm(tgt))

    def run(self, stmts, in_generator=False):
        for st in stmts:
            self.budget -= 1
            if self.budget < 0:
                self.unknown.append('step budget exhausted')
                raise _Abort()
            if isinstance(st, ast.For):
                try:
                    seq = self.ev_iter(st.iter)
                except NotEvaluable as e:
                    if self._mentions_indices(st):
                        self.unknown.append('loop `for %s in %s` (%s)' % (norm(st.target), norm(st.iter), e))
                    continue
                for v in seq:
                    try:
                        self.bind(st.target, v)
                    except NotEvaluable as e:
                        self.unknown.append(str(e))
                        break
                    self.run(st.body, in_generator)
            elif isinstance(st, ast.While):
                if self._mentions_indices(st):
                    self.unknown.append('while loop')
            elif isinstance(st, ast.If):
                try:
                    t = self.ev(st.test)
                except NotEvaluable:
                    t = None
                if t is None:
                    # a test over array values: a guard that only raises is assumed to pass, otherwise both sides run
                    if not (st.body and isinstance(st.body[-1], ast.Raise)):
                        self.run(st.body, in_generator)
                    if not (st.orelse and isinstance(st.orelse[-1], ast.Raise)):
                        self.run(st.orelse, in_generator)
                elif t:
                    self.run(st.body, in_generator)
                else:
                    self.run(st.orelse, in_generator)
            elif isinstance(st, (ast.Raise, ast.Return)):
                if isinstance(st, ast.Return):
                    self.returned = st
                raise _Abort()
            elif isinstance(st, ast.Expr) and isinstance(st.value, ast.Yield) and in_generator:
                try:
                    self.yields.append(self.ev(st.value.value))
                except NotEvaluable as e:
                    self.unknown.append('yield %s' % e)
            elif isinstance(st, ast.Assign) and len(st.targets) == 1 and isinstance(st.targets[0], (ast.Name, ast.Tuple)) \
                    and all(isinstance(n, (ast.Name, ast.Tuple, ast.Store, ast.Load)) for n in ast.walk(st.targets[0])):
                names = [n.id for n in ast.walk(st.targets[0]) if isinstance(n, ast.Name)]
                if isinstance(st.targets[0], ast.Name):
                    self.seqs.pop(st.targets[0].id, None)
                    try:
                        self.seqs[st.targets[0].id] = self.ev_iter(st.value)
                        continue
                    except NotEvaluable:
                        pass
                try:
                    self.bind(st.targets[0], self.ev(st.value))
                except NotEvaluable:
                    for n in names:
                        if n not in self.presets:
                            self.env.pop(n, None)
                        else:
                            self.env[n] = self.presets[n]
                    self.record(st)
            elif isinstance(st, ast.AugAssign) and isinstance(st.target, ast.Name):
                try:
                    fake = ast.BinOp(left=ast.Name(id=st.target.id, ctx=ast.Load()), op=st.op, right=st.value)
                    self.env[st.target.id] = self.ev(fake)
                except NotEvaluable:
                    self.env.pop(st.target.id, None)
            elif isinstance(st, (ast.With, ast.Try)):
                self.run(st.body, in_generator)
            else:
                self.record(st)

    def _mentions_indices(self, st):
        return any(isinstance(n, ast.Subscript) and isinstance(n.slice, ast.Tuple) and len(n.slice.elts) == 2 for n in ast.walk(st))

    def record(self, st):
        cnts, pairs, bad = set(), set(), []
        # a gather / scatter through two index sequences of one length: `v[...] = A[rows, cols]`, `A[rows, cols] += v`:
        # position k of the vector goes with the entry (rows[k], cols[k])
        fancy = []
        for sb in ast.walk(st):
            if isinstance(sb, ast.Subscript) and isinstance(sb.slice, ast.Tuple) and len(sb.slice.elts) == 2 \
                    and all(isinstance(e_, ast.Name) for e_ in sb.slice.elts):
                try:
                    a_, b_ = (self.ev(e_) for e_ in sb.slice.elts)
                except NotEvaluable:
                    continue
                if isinstance(a_, tuple) and isinstance(b_, tuple) and len(a_) == len(b_) and a_ and all(isinstance(x, int) for x in a_ + b_):
                    fancy.append(list(zip(a_, b_)))
        if fancy:
            if len(fancy) == 1 and isinstance(st, (ast.Assign, ast.AugAssign)):
                for k, pr in enumerate(fancy[0]):
                    self.events.append((k, (pr,)))
            else:
                self.unknown.append('statement `%s`: several index-array subscripts' % norm(st)[:60])
            return
        for sb in ast.walk(st):
            if not isinstance(sb, ast.Subscript):
                continue
            sl = sb.slice
            if isinstance(sl, ast.Slice) or any(isinstance(n, (ast.Slice, ast.Constant)) and (isinstance(n, ast.Slice) or n.value is Ellipsis)
                                                for n in ast.walk(sl)):
                continue
            try:
                v = self.ev(sl)
            except NotEvaluable as e:
                bad.append(str(e))
                continue
            if isinstance(v, int):
                cnts.add(v)
            elif isinstance(v, tuple) and len(v) == 2 and all(isinstance(x, int) for x in v):
                pairs.add(v)
        if pairs and len(cnts) == 1:
            self.events.append((cnts.pop(), tuple(sorted(pairs))))
        elif pairs and bad:
            self.unknown.append('statement `%s`: %s' % (norm(st)[:60], bad[:1] or 'several vector positions'))


def enumerate_function(model, fi, presets):
    """-> (events, unknown) for the whole body of fi under the given presets (dimension symbols, option values)"""
    ie = IndexEnum(model, fi.module, presets)
    try:
        ie.run(fi.node.body)
    except _Abort:
        pass
    return ie.events, ie.unknown


def returned_expression(model, fi, presets, facts):
    """interpret the integer/shape-level control flow of fi and return (Return node reached or None, interpreter)"""
    ie = IndexEnum(model, fi.module, presets)
    ie.facts = dict(facts)
    try:
        ie.run(fi.node.body)
    except _Abort:
        pass
    return ie.returned, ie
